PID = 'C20'
PROPS = ['PysphVerif.Props.C20']
TRANSLATORS = []
HARNESS = 'harness/c20.py'
TRUSTED_BASE = [
    'Lean 4.33 kernel; axioms propext, Classical.choice, Quot.sound only (audited per theorem each run)',
    'hand-written model lean/PysphVerif/Model/Needs.lean (checker, AccelerationEval flattening, stepper checks, pointer set-up of the generated code, precomputed closure) and Model/NeedsCodegen.lean (the check / declaration / binding sites of the integrator code generator as three separate transcriptions, keys of known_types) and Model/NeedsObjects.lean (stepper OBJECTS given to keywords: Integrator(fluid=step, solid=step); the code ranges over (array, stepper) pairs), tied to the code by differential execution on every run (harness/c20.py)',
    'the precomputed-symbol table is a parameter of every theorem; the harness feeds the model the real table (cb.symbols of Group.pre_comp) and synthetic acyclic ones',
    'the specification of "needs" is the inductive reachability relation Reach in Lemmas/Needs.lean (not the code\'s closure loop)',
    'method signatures are what inspect.getfullargspec reports (the harness passes them to the model; the oracle reads code objects instead)',
]
ASSUMPTIONS = [
    'CPU (cython) backend; the GPU helpers are not covered',
    'groups nested at most two levels (group -> sub-groups -> equations), which is all the code generator supports',
    'the precomputed-symbol table is acyclic when the real code is run (sort_precomputed does not terminate otherwise); the theorems need no such assumption',
    'what generated code reads = the `x = dst.<p>.data` / `x = src.<p>.data` lines of get_dest_array_setup / get_src_array_setup / get_array_setup; string-valued Group(start_idx=, stop_idx=) and Python-level reduce/py_initialize accesses are outside the statement',
]
READY = True
DESIGN_REF = '6/C20'
TECHNIQUE = 'Lean 4 proof over a hand-written model + correspondence check'
LEVEL_TEXT = ("Lean 4 theorems over every precomputed-symbol table, every list of particle arrays, every program "
              "(groups, sub-groups, the same equation or group object used repeatedly) and every set of steppers: precomputed_is_reachable_set "
              "(the closure loop computes exactly the reachable symbols), check_complete / incomplete_is_rejected, "
              "generated_reads_exist (every array pointer the generated compute() takes exists), "
              "error_names_equation_and_missing, rejection_is_justified (only the strict-subset quirk rejects a complete problem), "
              "needs_are_read (the check demands nothing the generated code does not use), "
              "stepper_check_complete, stepper_reads_exist, stepper_error_names, "
              "stepper_source_style_args_checked / stepper_bound_names_are_checked (a source-style argument s_p of a stepper is "
              "bound to the stepped array, so p must be in THAT array; nothing is bound that was not checked), "
              "stepper_decl_types_known / stepper_decl_total (the declaration site never raises the bare KeyError), "
              "stepper_missing_arg_is_rejected, "
              "shared_stepper_checked_per_array / shared_stepper_bindings_exist / shared_stepper_incomplete_is_rejected "
              "(one stepper object given to several keywords is checked for EVERY keyword's array), "
              "per_object_check_incomplete (counterexample: a check run once per stepper object accepts a problem whose "
              "generated integrator binds a missing pointer) and per_object_check_agrees_when_unshared, "
              "no_incomplete_problem_reaches_execution, plus the F10 counterexample for the checker of the pinned tree "
              "(orig_check_incomplete, orig_check_complete_partial, repair_is_conservative). The model is tied to the code "
              "on every run by differential execution against the scratch build (every shipped Equation and "
              "IntegratorStep class x removal of an explicitly / implicitly needed name x misspelt names, generated "
              "equations, generated steppers with d_* and s_* arguments / constants / one class on several arrays as separate objects or as one shared object (incomplete array named first or later) / every "
              "shipped integrator class, through SPHCompiler._get_code(); the three sites check / declaration / binding of the "
              "integrator generator are compared one by one), and the property's own predicate is evaluated on "
              "the implementation to produce replays.")
LEVEL_NOTE = ("Trusted: Lean kernel, axioms propext/Classical.choice/Quot.sound; the hand-written model (checked by the "
              "correspondence, ~2750 cases quick incl. all 288 shipped equation and 36 stepper classes; thorough removes every needed name of every shipped class); getfullargspec "
              "as the reader of signatures. Not covered: GPU helpers, string start_idx/stop_idx of a Group, groups nested "
              "deeper than two levels (AccelerationEval raises AttributeError there), the strict-subset false rejection "
              "(an array holding exactly the needed names) which is outside the statement but modelled. The "
              "signature-table `decide` of DESIGN section 6 is subsumed by the universally quantified theorems and was "
              "replaced by exercising every shipped class in the tie.")
TIMEOUT = {'quick': 1500, 'thorough': 3 * 3600}
