PID = 'C20'
PROPS = ['PysphVerif.Props.C20']
TRANSLATORS = []
HARNESS = 'harness/c20.py'
TRUSTED_BASE = [
    'Lean 4.33 kernel; axioms propext, Classical.choice, Quot.sound only (audited per theorem each run)',
    'hand-written model lean/PysphVerif/Model/Needs.lean, tied to the code by differential execution (harness/c20.py)',
]
ASSUMPTIONS = [
    'CPU (cython) backend; groups nested at most two levels (what the code generator supports)',
]
READY = False
DESIGN_REF = '6/C20'
TECHNIQUE = 'Lean 4 proof over a hand-written model + correspondence check'
LEVEL_TEXT = 'in progress'
LEVEL_NOTE = 'in progress'
TIMEOUT = {'quick': 1500, 'thorough': 3 * 3600}
