PID = 'C12'
PROPS = ['PysphVerif.Props.C12']
TRANSLATORS = ['schemes2tables.py']
HARNESS = 'harness/c12.py'
TRUSTED_BASE = [
    'Lean 4.33 kernel; axioms propext, Classical.choice, Quot.sound only (audited per theorem each run); '
    '`decide +kernel` over the whole generated table',
    'translate/schemes2tables.py: RUNS configure/configure_solver/setup_properties/get_equations of every scheme '
    'configuration of the current tree and emits Gen/Schemes.lean; its option grids are audited against the source on '
    'every run (every self.<attr> in a branch condition and every bool/enumerated option must be an axis; every argument of '
    'configure_solver on whose VALUE the method branches -- directly or through locals computed from it, other than the '
    '`is None` default tests -- must be a solver axis: WCSPH integrator_cls); validated on '
    'every run by harness/c12.py, which describes the same configurations with the real code\'s own functions '
    '(Group.get_array_names, getfullargspec, property dicts) and compares with the model\'s decoded table entries',
    'hand-written model lean/PysphVerif/Model/SchemeNeeds.lean (closure of precomputed symbols, needs, the real '
    'checkers\' strict-subset / subset tests), tied by the same comparison (needs and verdicts are computed in Lean)',
    'the AST scan for dst.<name> reads in reduce / py_initialize / py_stage* (names of the ParticleArray API excluded)',
    'the AST scan of the integrator\'s one_timestep for self.<member> uses and the reading of the members the template '
    'integrator_cython.mako defines itself; compared on every grid point with the text the real helper pastes '
    '(get_timestep_code) and the real get_stepper_method_wrapper_names(), and on every generated module with the members '
    'the generated cdef class Integrator really defines',
    'Model withExtra = the stepper-dict construction every shipped configure_solver uses (caller\'s dict first, defaults for '
    'the arrays not mentioned); tied on ~1200 history checkpoints per run against the real integrator.steppers',
    'the AST scan for index uses of array arguments (element inside another subscript, range bound, assigned to a local '
    'declared int/long/...; cast() and other calls are boundaries; an aliased array argument makes the translator fail); '
    'validated on every run against Cython\'s own type checker: the real code generator is run with every array typed '
    'double* and the places Cython flags must coincide, per class and method, with the scan',
    'the C types in the table are carray.get_c_type() of the arrays after setup_properties; compared on every run with the '
    'real arrays, and the verdict with get_known_types_for_arrays(get_all_array_names(arrays)) of the real code',
    'compyle / Cython for the generated-and-cythonized sample, + g++ for the compiled sample',
]
ASSUMPTIONS = [
    'plain particle arrays from pysph.base.utils.get_particle_array named fluid / solid (/ isolid); '
    'ISPHScheme and SISPHScheme hard-code the name "fluid" in setup_properties',
    'EDACScheme without an inlet/outlet manager (its arrays and equations belong to C16); '
    'ElasticSolidsScheme (no setup_properties) and tools.ParticlePacking are outside the quantifier',
    'numeric options enter the grid as zero / positive where the code branches on them; other numbers are fixed',
    'configure_solver arguments: integrator_cls is an axis where a scheme branches on it (WCSPH: default / TVDRK3 / EPEC); '
    'extra_steppers is exercised as None / {} / {wall: a user stepper that needs x and u} (theorem for every admissible dict); '
    'kernel is left at the default (MAGMA2/TSPH/PSPH only copy the number kernel.fkern)',
    'histories (reused scheme objects, argument objects shared between calls) are execution of a sample (~600 per quick run: '
    'every option / solver axis flipped alone between its values + random pairs, as `reconf` on one object and as `shared` '
    'between two), not proof; a scheme is re-configured with Scheme.configure(**options) (EDAC inviscid_solids: [] for none)',
    'CPU (cython) backend, serial',
    '"a short run leaves all properties finite" is execution of a stratified sample, not proof: initial evaluation + 3 steps on a '
    'uniform lattice with h = hdx*dx (ideal-gas schemes: e, p and the pilot h0 = h; walls where the configuration has solids, with '
    'the wall inputs V / rho0 / normals the shipped examples set), in an open and in a periodic domain; every floating-point '
    'property of the real particles finite after each of them. quick: every scheme class (EDAC per formulation) once per run, '
    '~35 (configuration, domain) variants walking through a pairwise cover of the options with the seed; thorough: the whole covers',
    'not run (harness/c12.py NOT_A_SETUP / KNOWN_DEFECT): PCISPHScheme in an open domain (no free-surface treatment; periodic only); '
    'ISPHScheme without scipy; finiteness not demanded for walls in a periodic domain with TSPHScheme / PSPHScheme / IISPHScheme '
    '(genuine defects of the unchanged tree: ghost copies of wall particles are never evaluated; proposed_fixes/C12-*-wall-ghosts.diff)',
    '"code generation succeeds" is proved only as far as the table goes (names present, index-used arguments integer-typed); '
    'beyond that it is execution: real code generation + Cython translation of a sample covering every scheme and every '
    'value of every option (pairs of values for the axes with <= 3 values)',
]
READY = True
DESIGN_REF = '6/C12'
TECHNIQUE = 'Lean 4 proof by exhaustive generated table (regenerated from the source every run) + validation of the extraction + direct oracle on the real checkers, code generator and a compiled sample'
LEVEL_TEXT = ("Lean 4 theorems: all_configs_complete / all_option_combinations_complete / all_configs_accepted / "
              "all_configs_index_types_ok (every array argument whose elements are used as an index has an integer known "
              "type; typesOk proved sound, its index part exact) / all_configs_stages_provided (every stage the integrator's "
              "one_timestep drives is a wrapper some chosen stepper provides; stagesOk proved exact) / "
              "all_configs_complete_with_extra_steppers (for EVERY caller-supplied extra_steppers dict whose steppers find their "
              "properties: complete; stages still provided when the fluid is left to the scheme) over the "
              "WHOLE table of scheme configurations (17 scheme classes, ~20 600 grid points = options x dim x solids x clean), "
              "decided by the kernel and lifted by complete_of_check (check_sound / check_complete, proved for every table, "
              "kind list and body), with the precomputed-symbol closure proved to be exactly the reachable set and every "
              "legal option combination proved to be a grid point. The table is re-extracted from the current source on "
              "every run by running the schemes; the harness validates the extraction against the real code's own "
              "functions and evaluates the property directly on the real checkers / code generator / known types for "
              "every grid point, generates and Cython-translates a covering sample (every scheme, every option value), "
              "runs ~600 histories (scheme object re-configured; argument objects shared between two schemes; extra_steppers "
              "None / {} / user wall steppers) whose every checkpoint must equal the model's withExtra answer and pass the oracle, "
              "and compiles + runs a stratified sample (every value of every configure_solver axis on every run, half of the "
              "configurations reached through a re-configuration history) on realistic lattices in open and periodic domains (all workers under a "
              "process runner that reports a killed worker as a failure of its configuration).")
LEVEL_NOTE = ("Proof for the tree the table was generated from (the quantifier is a finite table). Trusted: Lean kernel; the "
              "translator and its grid audit (validated each run); the AST scan for dst.<name> reads; plain arrays named "
              "fluid/solid; EDAC without inlet/outlet manager. 'Code generation succeeds' and 'a short run stays finite' "
              "are execution (every grid point for the checkers and the index-type oracle, sample for codegen in quick / "
              "all distinct in thorough, ~150 configurations generated + cythonized, ~35 compiled-and-run (configuration, domain) "
              "variants quick / ~800 thorough), not proof.")
TIMEOUT = {'quick': 1500, 'thorough': 3 * 3600}
