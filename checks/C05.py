PID = 'C05'
PROPS = ['PysphVerif.Props.C05']
TRANSLATORS = ['c05_rw_sets.py']
HARNESS = 'harness/c05.py'
TRUSTED_BASE = [
    'Lean 4.33 kernel; axioms propext, Classical.choice, Quot.sound only (audited per theorem each run)',
    'hand-written model lean/PysphVerif/Model/Determinism.lean (pair loop as micro-steps, threads as programs, schedules, _sort_neighbors, gather), tied to the generated OpenMP/serial loop by bit-exact execution at Float of a non-commutative fold under random partitions and interleavings (harness/c05.py, problem "tie")',
    'hand-written model lean/PysphVerif/Model/TreeReduce.lean (level-1 hmax reduction of the parallel octree build as micro-steps on per-thread tables + serial merge; the same loop on one shared table; pruning test of OctreeNNPS._get_neighbors; gather-or-scatter pair filter), the reduction tied bit-exactly at Float to the hmax of the level-1 children of Octree/CompressedOctree built under 1..16 threads (problem "treetie"); pruning test and pair filter are transcriptions, not tied',
    'translate/c05_rw_sets.py (Python ast): read/write sets of every Equation subclass under pysph/sph, re-extracted every run; index classification (d_idx, k*d_idx+offset = own row) and the hand-listed, reasoned exceptions are trusted',
    'exact commutativity stands in for "equal up to floating-point summation order"; IEEE rounding is sampled by the system runs only',
    'OpenMP memory model / absence of data races between different rows; compyle, Cython, g++',
    'that each NNPS returns the exact neighbour set is property C01 (hypothesis `Perm` here)',
]
ASSUMPTIONS = [
    'serial (single process) CPU runs; MPI and GPU back ends out of scope',
    'particles carry unique gids (the harness assigns them): --sort-gids then sorts by a key that travels with the particle',
    'fixed time step; 4 steps on three small problems with PEC-type integrators (2D two-array tank, 3D free-surface block, 2D periodic box) and 12 steps with --reorder-freq 2..6 on a 400-particle periodic box integrated by the shipped GTVFScheme/GTVFIntegrator (first evaluation of a step re-uses the NNPS: update_nnps=False); 6 steps of a non-periodic rarefying disc (1245 particles) whose smoothing length is recomputed from the density inside two update_nnps=True groups (a plain one and one made of sub-groups) so that max(h) grows by >= 25% inside each of them, reference run --nnps tree; a two-array tank whose smoothing lengths are constant in time but not uniform in space (wall 1.5 dx, fluid dx +-10% with isolated particles of 1.6-3 dx next to the centre lines of the bounding box, lattice order) in two sizes: 32x32 fluid particles / 6 steps for every --nnps value x --fixed-h x tuning options, 96x96 / 24 steps (48 rebuilds) for thread sweeps of the octree build and the neighbour cache',
    'the OpenMP runtime is driven with two wait policies (idle threads sleep / spin 30000 iterations) to obtain both staggered and simultaneous starts of the threads of a parallel region; schedules are sampled, not enumerated',
    'tuning options of a neighbour algorithm (--stratified-grid-num-levels, --tree-leaf-max-particles, --spatial-hash-table-size, --spatial-hash-sub-factor) and --fixed-h on problems whose h is constant in time are taken to be part of "a different neighbour-search algorithm": the state must equal that of plain --nnps ll; --approximate-nnps is excluded',
    'group-level interference between two different equations of one group (one writes d_X, another reads s_X) is not in the per-class table',
]
READY = True
DESIGN_REF = '6/C05'
TECHNIQUE = 'Lean 4 proof over a hand-written model + generated read/write-set table + system-level differential runs through Application.run'
LEVEL_TEXT = ("Lean 4 theorems over every row type, pair function, state, neighbour function, thread count, partition and "
              "interleaving (own_row_schedule_independence, thread_configuration_irrelevant, "
              "eval_depends_on_nbr_set_when_sorted, sorted_loop_configuration_independent, eval_indep_of_nbr_order_of_comm, "
              "perm_equivariance, sorted_order_travels_with_particles, sorted_simulation_configuration_independent, "
              "schedule_matters_without_discipline) about a "
              "hand-written model of the generated pair loop; about the neighbour search itself: level1_hmax_schedule_independent, "
              "level1_hmax_thread_configuration_irrelevant, level1_hmax_bounds_octant (parallel octree build = serial build for every "
              "thread count, chunking and interleaving), shared_hmax_lost_update / shared_hmax_single_thread_ok (one shared table is "
              "not), prune_sound / prune_unsound_if_hmax_underestimated (tree walk), isNbr_symm, gather_only_eq_of_uniform_h, "
              "gather_only_misses_scatter (pair filter vs --fixed-h); plus own_row_discipline_table / exceptions_are_real decided "
              "over the read/write sets extracted from all 288 shipped Equation subclasses on every run. The model is tied "
              "to the generated code by bit-exact execution at Float; the property itself is evaluated on the real code by "
              "differential runs through Application.run over --nnps x --cache-nnps x --openmp/threads x --reorder-freq x "
              "--sort-gids, matched by gid.")
LEVEL_NOTE = ("Proof of the discipline that makes schedules and neighbour order irrelevant; the system runs are sampled "
              "(quick: ~28 configurations of the two-array problem, every --nnps value sorted and unsorted, + 6 tie traces + 8 configurations "
              "of the 12-step GTVF problem with re-orders inside the time loop + 8 configurations of the adaptive-h 'rarefy' problem "
              "(ll, tree, comp_tree, two more binning algorithms, one stratified one; compared with --nnps tree and pairwise; a crashed run is a property failure) "
              "+ 24 configurations of 'multires' (every --nnps value once with --fixed-h and once with non-default tuning options) + 24 of 'multires_big' "
              "(tree / comp_tree / cached searches under 3..16 threads, spin-wait, each twice, incl. threaded builds under a serial evaluation) + the octree tie (288 builds); "
              "thorough: the full option matrix on three problems (+ 30 --fixed-h / tuning-option configurations each) + ~55 GTVF configurations + ~40 'rarefy' configurations over all ten --nnps values + ~100 'multires' configurations, ~1900 runs). Not covered by proof: IEEE rounding, real OpenMP interleavings/memory model, exactness of each "
              "NNPS (C01), interference between different equations of one group, re-ordering inside the multi-stage theorem "
              "(perm_equivariance is per loop). Known findings tolerated: --reorder-freq with sh/esh/strat_hash "
              "(NotImplementedError), z-order family on multi-array problems (C01).")
TIMEOUT = {'quick': 1500, 'thorough': 3 * 3600}
