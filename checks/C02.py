PID = 'C02'
PROPS = ['PysphVerif.Props.C02']
TRANSLATORS = ['precomp2lean.py']
HARNESS = 'harness/c02.py'
TRUSTED_BASE = [
    'Lean 4.33 kernel; axioms propext, Classical.choice, Quot.sound only (audited per theorem each run)',
    'translate/precomp2lean.py (code strings of precomputed_symbols() and the bullet list of equations.rst -> '
    'Gen/Precomp.lean; regenerated every run and validated every run: each generated block is evaluated at Float '
    'by the driver and compared bit for bit with CPython executing the real code string / documented text)',
    'hand-written model lean/PysphVerif/Model/Codegen.lean (sort_precomputed, _setup_precomputed, MegaGroup '
    'data, pointer set-up, declarations, scratch vectors, call sites of the group callables), tied to the code by comparing with the real functions '
    'and with the parsed generated source of random programs',
    'compyle transpiler, Cython, g++, libm, cyarray: outside the repository and outside any model; for arbitrary '
    'user equations the statement is carried by differential execution (testing), labelled as such',
    'the naming-convention formulas for WDP, GHI/GHJ/GHIJ, WDASHI/J/IJ, which equations.rst does not list',
]
ASSUMPTIONS = [
    'serial CPU (Cython) backend, OpenMP off; one thread',
    'a property name has the same carray type in every particle array that carries it (otherwise the generated '
    'wrapper declares the attribute twice and does not compile)',
    'equations within the documented subset: s_* arrays only in loop / loop_all / initialize_pair',
    'neighbour lists are those of the NNPS in use (C01); order of hook calls is C03',
]
READY = True
DESIGN_REF = '6/C02'
TECHNIQUE = ('Lean 4 proof over a table regenerated from equation.py/equations.rst and a hand-written model of the '
             'generator bookkeeping + generated-source validation + differential execution of compiled programs')
LEVEL_TEXT = ("Lean 4 theorems (25) over (i) the precomputed-symbol table regenerated on every run from "
              "equation.py::precomputed_symbols() and docs/source/design/equations.rst (precomp_code_eq_doc/_conv, "
              "precomp_matches_doc in every number system, symbols_table_consistent, precomp_table_acyclic) and (ii) a "
              "hand-written model of sort_precomputed, Group._setup_precomputed, MegaGroup._make_data and the pointer / "
              "declaration / scratch-vector set-up, for all tables, key sets and equation lists (sort_is_perm, "
              "sort_respects_deps, sort_terminates_on_dag, closure_closed_minimal, setup_ok_on_shipped_table, wiring_sound, "
              "wiring_covers_dest/src/precomputed, wiring_types, scratch_disjoint; callsites_own_group / callsites_complete: every "
              "condition/pre/post call of the generated compute refers to self.groups[i](.data[k]) of the group in whose text it "
              "stands, whatever the Group(name=...) labels are, shared labels included). The model is tied to the code on every "
              "run by translator validation (bit-exact), by the real sort/set-up functions on random tables, and by parsing "
              "AccelerationEvalCythonHelper.get_code() of random programs (groups, one level of sub-groups, condition/pre/post, "
              "explicit names: unique or shared by several groups); the property's own predicate (values after "
              "AccelerationEval.compute equal a pure-Python execution along the documented order with the documented "
              "formulas and the Python kernel classes) is evaluated by differential execution of compiled programs.")
LEVEL_NOTE = ("proof for table / order / closure / wiring; for what transpiled user code computes (compyle, Cython, g++, "
              "libm: outside the repository and outside any model) the statement is carried by differential execution, "
              "which is testing: quick = 15 compiled programs (2 corpus programs, one of them groups and sub-groups sharing a name "
              "with conditions of different outcome; generated classes in the documented subset with group callables; 6 programs of "
              "shipped equations), thorough = all curated and discovered scalar-property shipped equations x dims. "
              "WDP/GH*/WDASH* are checked against the naming convention because equations.rst does not list them. "
              "OpenMP, GPU back ends, iterated groups (C03), strided shipped equations and Python-level hooks (py_initialize/reduce/converged: "
              "C03) are not exercised.")
TIMEOUT = {'quick': 1500, 'thorough': 3 * 3600}
