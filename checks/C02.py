PID = 'C02'
PROPS = ['PysphVerif.Props.C02']
TRANSLATORS = ['precomp2lean.py']
HARNESS = 'harness/c02.py'
TRUSTED_BASE = [
    'Lean 4.33 kernel; axioms propext, Classical.choice, Quot.sound only (audited per theorem each run)',
    'translate/precomp2lean.py (code strings of precomputed_symbols() and the bullet list of equations.rst -> '
    'Gen/Precomp.lean; regenerated every run and validated every run: each generated block is evaluated at Float '
    'by the driver and compared bit for bit with CPython executing the real code string / documented text)',
    'hand-written model lean/PysphVerif/Model/Codegen.lean (sort_precomputed, _setup_precomputed, MegaGroup '
    'data, pointer set-up, declarations, scratch vectors), tied to the code by comparing with the real functions '
    'and with the parsed generated source of random programs',
    'compyle transpiler, Cython, g++, libm, cyarray: outside the repository and outside any model; for arbitrary '
    'user equations the statement is carried by differential execution (testing), labelled as such',
    'the naming-convention formulas for WDP, GHI/GHJ/GHIJ, WDASHI/J/IJ, which equations.rst does not list',
]
ASSUMPTIONS = [
    'serial CPU (Cython) backend, OpenMP off; one thread',
    'a property name has the same carray type in every particle array that carries it (otherwise the generated '
    'wrapper declares the attribute twice and does not compile)',
    'equations within the documented subset: s_* arrays only in loop / loop_all / initialize_pair',
    'neighbour lists are those of the NNPS in use (C01); order of hook calls is C03',
]
READY = False
DESIGN_REF = '6/C02'
TECHNIQUE = ('Lean 4 proof over a table regenerated from equation.py/equations.rst and a hand-written model of the '
             'generator bookkeeping + generated-source validation + differential execution of compiled programs')
LEVEL_TEXT = ''
LEVEL_NOTE = ''
TIMEOUT = {'quick': 1500, 'thorough': 3 * 3600}
