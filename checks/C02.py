PID = 'C02'
PROPS = ['PysphVerif.Props.C02']
TRANSLATORS = ['precomp2lean.py']
HARNESS = 'harness/c02.py'
TRUSTED_BASE = [
    'Lean 4.33 kernel; axioms propext, Classical.choice, Quot.sound only (audited per theorem each run)',
    'translate/precomp2lean.py (code strings of precomputed_symbols() and the bullet list of equations.rst -> '
    'Gen/Precomp.lean; regenerated every run and validated every run: each generated block is evaluated at Float '
    'by the driver and compared bit for bit with CPython executing the real code string / documented text)',
    'hand-written model lean/PysphVerif/Model/Codegen.lean (sort_precomputed, _setup_precomputed, MegaGroup '
    'data, pointer set-up, declarations, scratch vectors, call sites of the group callables) and Model/CodegenOpts.lean '
    '(destination loop limits from start_idx / stop_idx / real, attribute declarations of the equation wrapper classes) '
    'and Model/CodegenIter.lean (break test and loop of iterated groups, ParticleArrayWrapper.set_array / update_particle_arrays), '
    'tied to the code by comparing with the real functions and with the parsed generated source of random programs',
    'compyle transpiler, Cython, g++, libm, cyarray: outside the repository and outside any model; for arbitrary '
    'user equations the statement is carried by differential execution (testing), labelled as such',
    'the naming-convention formulas for WDP, GHI/GHJ/GHIJ, WDASHI/J/IJ, which equations.rst does not list',
]
ASSUMPTIONS = [
    'serial CPU (Cython) backend, OpenMP off; one thread',
    'a property name has the same carray type in every particle array that carries it (otherwise the generated '
    'wrapper declares the attribute twice and does not compile)',
    'equations within the documented subset: s_* arrays only in loop / loop_all / initialize_pair',
    'the equation classes of ONE evaluator have distinct class names (the generated module has one cdef class per name); '
    'across evaluators of one process names may repeat freely',
    'start_idx / stop_idx within [0, number of particles of the destination] (beyond that the generated loop indexes out of bounds)',
    'neighbour lists are those of the NNPS in use (C01); order of hook calls is C03',
]
READY = True
DESIGN_REF = '6/C02'
TECHNIQUE = ('Lean 4 proof over a table regenerated from equation.py/equations.rst and a hand-written model of the '
             'generator bookkeeping + generated-source validation + differential execution of compiled programs')
LEVEL_TEXT = ("Lean 4 theorems (43) over (i) the precomputed-symbol table regenerated on every run from "
              "equation.py::precomputed_symbols() and docs/source/design/equations.rst (precomp_code_eq_doc/_conv, "
              "precomp_matches_doc in every number system, symbols_table_consistent, precomp_table_acyclic) and (ii) a "
              "hand-written model of sort_precomputed, Group._setup_precomputed, MegaGroup._make_data and the pointer / "
              "declaration / scratch-vector set-up, for all tables, key sets and equation lists (sort_is_perm, "
              "sort_respects_deps, sort_terminates_on_dag, closure_closed_minimal, setup_ok_on_shipped_table, wiring_sound, "
              "wiring_covers_dest/src/precomputed, wiring_types, scratch_disjoint; callsites_own_group / callsites_complete: every "
              "condition/pre/post call of the generated compute refers to self.groups[i](.data[k]) of the group in whose text it "
              "stands, whatever the Group(name=...) labels are, shared labels included; dest_range_is_documented_range, "
              "stop_at_or_below_start_runs_nothing, default_limits_run_all: for every start_idx / stop_idx (integer, 0 included, name of a "
              "property/constant, None), real flag and run-time state the loops of a destination block visit exactly the documented "
              "range(start, stop), with the counterexample falsy_stop_runs_everything for a generator that tests the truth value of stop_idx; "
              "wrapper_decl_holds_every_instance / wrapper_policies_agree_when_uniform / last_instance_policy_truncates / class_name_cache_goes_stale: "
              "the C type declared for a numeric instance attribute holds the value of every instance re-created through the class; "
              "break_test_polls_every_equation / break_test_iff_each_converged / iterated_group_sweeps_documented: the break test of an iterated group asks "
              "every equation object of the group, sub-groups included, whichever class of its hierarchy defines converged(), and the generated loop makes "
              "exactly the documented number of sweeps for all min_iterations <= max_iterations, 1 <= max_iterations and all behaviours of the equations, with the "
              "counterexample own_dict_polling_stops_early for a generator that polls by the class __dict__; rebind_binds_props_and_consts / "
              "rebind_history_leaves_nothing_stale: after any history of update_particle_arrays every property AND constant attribute of an array wrapper refers "
              "into the last array passed, with the counterexample consts_bound_once_go_stale). The model is tied to the code on every "
              "run by translator validation (bit-exact), by the real sort/set-up functions on random tables, and by parsing "
              "AccelerationEvalCythonHelper.get_code() of random programs (groups, one level of sub-groups, condition/pre/post, "
              "explicit names: unique or shared by several groups; start_idx / stop_idx at boundary values; int / bool / float "
              "attributes with per-instance values; generated class hierarchies: subclasses overriding some methods and inheriting the rest, reduce / converged "
              "hooks, Group(iterate=True, min_iterations=, max_iterations=) on groups of equations and parents of sub-groups -- the break test of every iterated group is "
              "parsed and compared), also of programs built one after the other in ONE process whose class / array / group names "
              "collide (sessions; the source of each member must be the one a fresh process generates); the property's own predicate (values after "
              "AccelerationEval.compute equal a pure-Python execution along the documented order with the documented "
              "formulas and the Python kernel classes) is evaluated by differential execution of compiled programs, each followed by a HISTORY on the same evaluator: "
              "compute again, update_particle_arrays with new ParticleArray objects (other data, other values of the constants) and compute -- every property and constant of the "
              "arrays being evaluated AND of the arrays replaced must equal the Python execution of the same history; the wrapper attributes are compared by identity with the carrays "
              "of the array passed (tied to the binding model).")
LEVEL_NOTE = ("proof for table / order / closure / wiring; for what transpiled user code computes (compyle, Cython, g++, "
              "libm: outside the repository and outside any model) the statement is carried by differential execution, "
              "which is testing: quick = 17 compiled single programs (4 corpus programs: source/destination wiring, groups and sub-groups "
              "sharing a name with conditions of different outcome, loop limits at the boundaries -- stop_idx=0, start==stop, a constant of value 0 --, "
              "instances differing in attribute type; generated classes in the documented subset with group callables, loop limits and int/bool/float "
              "attributes; 6 programs of shipped equations) + 5 compiled sessions (19 programs built one after the other in one process per session: same class names with other attribute types, "
              "re-defined bodies and helpers, other array types, other wiring/limits, repeated programs, shipped BodyForce with int then float parameters; "
              "each member evaluated against the Python executor, a failing member re-run alone to tell a history failure) "
              "+ 18 uncompiled sessions, thorough = all curated and discovered scalar-property shipped equations x dims. "
              "WDP/GH*/WDASH* are checked against the naming convention because equations.rst does not list them. "
              "Every generated compiled program carries a history (compute again / update_particle_arrays + compute); a third of them class hierarchies with "
              "inherited reduce / converged and iterated groups (sweep count decided by an inherited converged(), cut by min_/max_iterations). "
              "OpenMP, GPU back ends, iterate=True on SUB-groups (the Cython template ignores it), the group's own pre/post of an iterated group (the documentation does not say "
              "whether they belong to a sweep), strided shipped equations and py_initialize hooks of generated classes are not exercised.")
TIMEOUT = {'quick': 1500, 'thorough': 3 * 3600}
