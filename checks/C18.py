PID = 'C18'
PROPS = ['PysphVerif.Props.C18']
TRANSLATORS = []
HARNESS = 'harness/c18.py'
TRUSTED_BASE = [
    'Lean 4.33 kernel; axioms propext, Classical.choice, Quot.sound only (audited per theorem each run)',
    'hand-written small-step model lean/PysphVerif/Model/Controller.lean (one step = one Lock/Condition primitive plus the code up to the next one), tied to pysph/solver/controller.py by step-by-step differential execution of forced schedules (harness/c18.py)',
    "the cooperative replacement of CPython's threading.Lock/RLock/Condition/current_thread in harness/c18.py (wait = enqueue+release atomically, FIFO notify; wait_for, timed waits and try-locks as further yield points; a thread that dies of an exception, a state with every thread blocked, and a thread that does not come back to the scheduler within 4 s are reported as property failures with the schedule as replay, never a hang) stands in for CPython's primitives and scheduler",
    'serial DummyComm for the MPI calls; func_dict empty; a stub solver object (dt, count, particles, one probe method)',
]
ASSUMPTIONS = [
    'interleaving at synchronisation-primitive granularity (unsynchronised reads such as `while self.pause` are atomic with the adjacent primitive)',
    'one solver thread, any number of interface threads (model); 1-3 in the tie',
    'serial run (comm.Get_size() == 1); no callbacks registered with add_function',
    "task ids: controller.py's id(lock) is answered by a deterministic allocator in the harness (the id of a freed lock goes to the next lock created, as CPython's allocator does, but ids whose result was collected are never handed out again); per-command locks are not kept alive by the harness; on the unmodified code a lock lives until its result is collected, so ids never repeat (the model's counter), and uniqueness among uncollected tasks is checked on every run (C18:task-id-reused-while-outstanding)",
]
READY = True
DESIGN_REF = '6/C18'
TECHNIQUE = 'Lean 4 proof (inductive invariants over a transition system) + forced-schedule correspondence check'
LEVEL_TEXT = ("Lean 4 theorems over every reachable state of a small-step model of CommandManager/Controller, for "
              "every number of interface threads, every program over get/set/queued commands/get_result/"
              "pause_on_next/wait/cont and every schedule: queue_exactly_once (ids ever queued = executed ++ "
              "in-flight ++ queue, no duplicates), executed_only_at_control_point, "
              "result_delivered_is_execution_result, get_result_blocks_until_run, "
              "get_result_holds_lock_only_after_release, solver_never_raises (the solver thread never reaches the "
              "KeyError/RuntimeError exits of run_queued_commands; every protocol variant), "
              "paused_solver_makes_no_progress_until_cont, wait_returns_only_when_honoured; for the repaired protocol "
              "wait_wakeup_not_lost, dispatch_wakeup_not_lost, plock_mutual_exclusion, lock_ownership (dispatch lock, "
              "res_lock, qlock, plock: owner <-> program counter), command_lock_ownership; LIVENESS of the repaired "
              "protocol for ALL operations (queued commands, get_result of arbitrary ids, any nesting of "
              "pause_on_next/wait/cont), any number of threads, the only requirement (WF) being that no program ends "
              "inside a pause section: no_deadlock (every reachable state has an enabled thread; "
              "no_deadlock_statement_holds and no_deadlock_pause_fragment are corollaries, "
              "unbalanced_pause_blocks_solver shows WF is needed), some_enabled_step_decreases_rank / "
              "interface_step_decreases_rank (explicit lexicographic ranking function), can_always_finish (from every "
              "reachable state some finite continuation finishes every thread with every queued command executed "
              "exactly once: no partial deadlock), terminates_under_strong_fairness (EVERY strongly fair infinite "
              "schedule reaches such a final state), strongly_fair_schedule_exists (non-vacuity), "
              "weak_fairness_is_not_enough (a weakly fair schedule that starves a dispatcher at qlock for ever); the "
              "deadlocks of the pinned protocol are exhibited as theorems (lost_wakeup_reachable, "
              "lock_order_deadlock_reachable, get_result_while_paused_deadlock_reachable, early_wait_return_reachable) "
              "and replayed on the real code. The model is tied to the code on every run by executing the real "
              "CommandManager under a cooperative scheduler on thousands of forced schedules and comparing enabled "
              "sets, primitives and results step by step; the property's own predicate (exactly-once, delivery, "
              "wait/cont discipline, nobody blocked forever for every program set that does not end inside a pause "
              "section - the class the liveness theorems cover) is evaluated on the real traces.")
LEVEL_NOTE = ("Complete for the model: safety for every protocol variant, deadlock freedom and termination under "
              "strong fairness for the repaired protocol, all operations, any number of threads. Termination needs "
              "STRONG fairness (weak fairness provably does not suffice: CPython locks are not fair, a dispatcher can "
              "in principle starve at qlock while the solver spins); on the real code termination is sampled under "
              "the harness's round-robin drain. Trusted: Lean kernel; the hand-written model (checked by the "
              "correspondence); the cooperative threading replacement in place of CPython's primitives and "
              "scheduler; primitive-level interleaving granularity; serial DummyComm.")
TIMEOUT = {'quick': 1200, 'thorough': 3 * 3600}
