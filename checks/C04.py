PID = 'C04'
PROPS = ['PysphVerif.Props.C04']
TRANSLATORS = ['timestep2lean.py']
HARNESS = 'harness/c04.py'
TRUSTED_BASE = [
    'Lean 4.33 kernel; axioms propext, Classical.choice, Quot.sound only (audited per theorem each run)',
    'translate/timestep2lean.py (Python ast -> Program); subset explicit, anything else fails the run; '
    'validated every run: the programs it emits are executed by the model and compared event by event '
    'with the compiled integrator built from the same source',
    'hand-written model lean/PysphVerif/Model/Stepper.lean of the class generated from integrator_cython.mako / '
    'integrator_cython_helper.py and of Integrator.compute_accelerations/update_domain, and '
    'Model/StepperHist.lean of the attributes the public setters change between steps (set_nnps, '
    'set_post_stage_callback, set_fixed_h), and Model/StepperSession.lean of the process (get_timestep_code reads '
    'the object\'s own one_timestep text; built extension modules found by a digest of the whole generated text), '
    'tied by tracer steppers, tracer equations, logging NNPS subclasses '
    'and delegating evaluator proxies through the real SPHCompiler (harness/c04.py)',
    'the tracers themselves (generated stepper/equation source logging into one shared constant array; '
    'Python subclasses of LinkedListNNPS/BoxSortNNPS that record which object is updated, given to the public '
    'set_nnps; delegating evaluator proxies installed on the Python Integrator object)',
    'compyle, Cython, g++ (third party): exercised by the tie, not modelled',
]
ASSUMPTIONS = [
    'serial CPU (cython) backend, no OpenMP, no MPI (parallel_manager is None)',
    'ghost oracle: 1-d unit interval, constant h; which particles beyond the kernel radius of a face also get an '
    'image (n_layers) is left to C07 -- demanded: every ghost is an image of a current real particle (multiset), '
    'every real particle within 2h of a face has its image',
    'particle arrays are aligned (real particles first): C06 invariant, hypothesis WorldAligned of the theorems',
    'one_timestep is written in the documented language (calls of initialize/stageN/compute_accelerations/'
    'update_domain/do_post_stage with constant arguments, stage_dt arithmetic over t, dt and literals, '
    'constant-bound for loops); the translator rejects anything else',
    'numerical bodies of shipped steppers: differential execution (bit-exact) on sampled inputs only',
    'sessions: the digest under which compyle finds a built extension module (md5 of the generated text) does not '
    'identify two different texts (hypothesis of session_compiles_own_text; keying_by_class_name_is_unsound shows '
    'that a key which does is wrong)',
]
READY = True
DESIGN_REF = '6/C04'
TECHNIQUE = ('Lean 4 proof over programs regenerated from the one_timestep sources + hand-written model of the '
             'generated integrator class; tracer-based correspondence through the real SPHCompiler')
LEVEL_TEXT = ("Lean 4 theorems for every program of the one_timestep language, every stepper assignment, every world "
              "(state + the seven operations the generated code invokes), every t/dt and every sequence of steps: "
              "stepper_refines_literal (the generated class = literal execution, under C06 alignment; "
              "alignment_is_necessary shows the hypothesis cannot be dropped), stage_touches_exactly_real, "
              "dest_order_perm/sorted, stage_time_is_last_post_stage, step_ignores_stale_registers, multi_step_compose, "
              "trace_closed_form, callback_once_per_stage, well_staged_callbacks; for every HISTORY of public calls on "
              "one integrator object (steps interleaved with set_nnps / set_post_stage_callback / set_fixed_h / particles "
              "added): history_refines_literal (= literal reading with the NNPS and callback of the most recent setter "
              "call), hist_attributes_are_last_set, refresh_targets_last_set_nnps (a step refreshes / re-creates ghosts "
              "through no other NNPS object and calls no other callback), fixed_h_is_irrelevant_to_steps; for every SESSION "
              "(any classes compiled one after the other in one process, equal __module__/__qualname__ included, any "
              "set of modules built earlier): session_compiles_own_text (every class gets the module rendered from its "
              "own / inherited one_timestep text), session_member_refines_literal (hence = literal execution of its own "
              "text over any history), session_independent_of_earlier_members, keying_by_class_name_is_unsound (a body "
              "remembered per (module, qualname) violates it); and by `decide` over the table "
              "regenerated from the source shipped_programs_well_staged / shipped_programs_end_at_t_plus_dt. "
              "The programs are re-translated from /repo on every run; the model of the generated class is tied to the "
              "real pipeline (mako template -> compyle -> Cython -> g++) by tracer steppers/equations whose complete "
              "event log (method, array, particle index, t, dt bit for bit, hook/NNPS/evaluator/callback events) must "
              "equal the model's trace, for shipped integrators with the method sets of their documented steppers and "
              "for generated 1-5 stage integrators with py_stage hooks, several evaluators, per-array steppers, hooks "
              "that add particles, tracer methods in 9 syntactic shapes (trailing else: pass, docstring+pass, nested, "
              "multi-line signature, ...), one_timestep texts with docstrings/comments/pass/multi-line calls, histories "
              "with a second set_nnps (new LinkedList / cached / BoxSort object, identity of the refreshed object logged), "
              "callback replaced or removed, set_fixed_h toggled and particles added between steps, "
              "SESSIONS in which 3-4 different integrator classes that share __module__ and __qualname__ (branches of "
              "one factory function / class statement executed again / type(name, bases, ns)), with equally named but "
              "different stepper classes, generated one_timestep texts or one_timestep inherited from different shipped "
              "integrators, are compiled and run one after the other in ONE process and some of them once more at the "
              "end, each element judged against the literal reading of its own class (the model of the process decides "
              "which body the element's model run uses), "
              "each configuration in the option matrix domain {periodic, mirror (reflecting walls), "
              "none} x set_fixed_h {False, True} on one compiled module; the property's own predicate is evaluated by "
              "letting CPython execute the integrator's one_timestep literally, and after every "
              "Integrator.update_domain() the ghosts in the arrays must be exactly images (periodic translates / wall "
              "reflections / none) of the current real particles with their current data; shipped steppers and generated "
              "user-defined steppers with if/elif/else/pass bodies are compared bit for bit with CPython executing "
              "one_timestep with the stepper's own methods.")
LEVEL_NOTE = ("Partial: (1) proof covers the documented one_timestep language only (translator fails loudly outside it); "
              "(2) the generated Cython/C itself is third-party output: covered by the tie (testing), not by proof; "
              "(3) numerical stepper bodies: bit-exact differential execution on samples; (4) serial CPU backend only; "
              "(5) closed-form trace theorems are for hooks that leave array sizes alone (the refinement theorem has no "
              "such restriction). Trusted: Lean kernel + 3 standard axioms, translator, hand-written model, tracers.")
TIMEOUT = {'quick': 2400, 'thorough': 4 * 3600}
