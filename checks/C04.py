PID = 'C04'
PROPS = ['PysphVerif.Props.C04']
TRANSLATORS = ['timestep2lean.py']
HARNESS = 'harness/c04.py'
TRUSTED_BASE = [
    'Lean 4.33 kernel; axioms propext, Classical.choice, Quot.sound only (audited per theorem each run)',
]
ASSUMPTIONS = [
    'serial CPU (cython) backend, no OpenMP',
]
READY = False
DESIGN_REF = '6/C04'
TECHNIQUE = 'Lean 4 proof over a model regenerated from source (one_timestep programs) + hand-written model of the generated integrator class, tied by tracer steppers through the real SPHCompiler'
LEVEL_TEXT = 'in progress'
LEVEL_NOTE = 'in progress'
TIMEOUT = {'quick': 1500, 'thorough': 3 * 3600}
