PID = 'C14'
PROPS = ['PysphVerif.Props.C14']
TRANSLATORS = []
HARNESS = 'harness/c14.py'
TRUSTED_BASE = [
    'Lean 4.33 kernel; axioms propext, Classical.choice, Quot.sound only (audited per theorem each run)',
    'hand-written model lean/PysphVerif/Model/Interp.lean, tied to the compiled evaluators by bit-exact differential execution at Float (harness/c14.py)',
    'kernel values W, grad W enter model and oracle from the pure-Python kernel classes (C08 is about them); the theorems treat them as arbitrary (non-negative where stated) weights',
    'exact ordered-field arithmetic stands in for IEEE doubles in the theorems',
    'gj_solve (Model/GaussJordan.lean, property C13) is the linear solver of order1; the order1 theorem is about the linear system handed to it',
]
ASSUMPTIONS = [
    'serial CPU (cython) backend, LinkedListNNPS (the default of Interpolator and SPHEvaluator)',
    'update_particle_arrays is given arrays with the same names, in the same order, with the same properties and constants (documented precondition); different source arrays may have different property sets',
    'the smoothing length of the target points is the largest h of the real source particles at the time the points were set (what Interpolator documents by its code; the property text does not fix it)',
    'after an in-place change of particle POSITIONS or SMOOTHING LENGTHS update() is called before interpolate (documented contract); histories that do not are not interpolated.  In-place changes of masses, densities, property values and constants need no update() (with a periodic domain they do: the ghosts are copies made by update())',
    'several Interpolators / SPHEvaluators may be built over the same source arrays and used in any interleaving; each calls its own update() after the arrays moved; not with a periodic domain (two domain managers would own the ghosts of the same arrays)',
    'periodic boxes at least twice the kernel support wide',
]
READY = True
DESIGN_REF = '6/C14'
TECHNIQUE = 'Lean 4 proof over a hand-written model + bit-exact correspondence check'
LEVEL_TEXT = ("Lean 4 theorems over every neighbour list, every ordered field, arbitrary kernel values, masses, "
              "densities (shepard_is_weighted_mean, weighted_mean_bounds, shepard_constant, zero_when_no_source_in_range, "
              "shepard_small_below_threshold, sph/splash/splash_norm_is_documented_sum, splash_norm_bounds, "
              "summation_density_is_sum, neighbour_order_irrelevant, out_of_range_sources_irrelevant, source_arrays_add_up, "
              "order1_system_of_affine_field, order1_truncated_system, order1_reproduces_linear) and over every history of "
              "set_interpolation_points / update_particle_arrays / update / in-place changes (bindings_current, "
              "neighbours_current, evaluator_bindings_current; constants_current, evaluator_constants_current, "
              "constant_values_current: the constants user-supplied equations read are those of the arrays currently "
              "bound; sph_const_is_documented_sum) and, including earlier interpolate calls of other "
              "properties and arrays that arrive with a used temp_prop, over the staging of the requested property "
              "(missing_property_staged_as_zeros, interpolate_stages_requested_property, "
              "interpolate_independent_of_history) and over every shape and memory layout of the caller's "
              "coordinate arrays (result_index_matches_point, squeezed_result_index_matches_point, "
              "every_target_particle_is_returned, target_points_independent_of_layout: ravel on the way in, "
              "reshape + squeeze on the way out) and every dtype of them (target_h_is_max_source_h, "
              "target_h_independent_of_points, target_coords_cast_index: the target particles sit at the caller's "
              "points converted to double and carry the largest source h as a double) and over every history of the "
              "state the source arrays SHARE with the caller and with other evaluators (order1 as three groups over "
              "a store of m / rho / temp_prop: order1_density_from_present_masses, order1_independent_of_shared_rho, "
              "order1_unaffected_by_other_evaluators, order1_shared_reproduces_linear: every call recomputes the "
              "density from the present masses and builds matrix and right-hand side from the same volumes, whatever "
              "rho held before; data_changes_keep_bindings, neighbours_current_after_data_changes: in-place changes "
              "of data need no update()) about a hand-written model that transcribes the five "
              "interpolation equations as folds and the Interpolator/SPHEvaluator bindings as a state machine; the model is "
              "tied to the run-time-compiled evaluators on every run by bit-exact differential execution at Float "
              "(values, summation densities, moment matrices, right-hand sides, solutions, binding states, the "
              "temp_prop contents interpolate stages per source array given what was there before, the target "
              "particles made from N-d coordinate arrays in C/Fortran/permuted/strided/reversed layouts and of "
              "dtype float64/float32/int64/int32 or Python lists, their smoothing lengths, the objects whose "
              "property carrays and whose constant carrays each generated ParticleArrayWrapper holds, the "
              "un-flattened result, one whole order1 compute per interpolate call from the rho the arrays held "
              "BEFORE the call), in histories that change masses / densities / property values / constants in place "
              "without update() and interleave a second Interpolator or SPHEvaluator over the same arrays (for order1 "
              "one with another kernel, which leaves its own density in the shared rho), and the "
              "property's own predicate is evaluated by brute force on the real code, with the source values read "
              "from the requested property itself (zeros for arrays lacking it), entry idx judged at the caller's "
              "(x[idx], y[idx], z[idx]) with the target smoothing length computed from the history, user-supplied "
              "equations (Interpolator(equations=...), SPHEvaluator) judged with the constants of the arrays "
              "currently set, order1 volumes from a brute-force summation density over real, "
              "Remote-tagged and periodic-image sources with rho not supplied, to produce replays.")
LEVEL_NOTE = ("Trusted: Lean kernel, axioms propext/Classical.choice/Quot.sound; the hand-written model (checked by the "
              "correspondence: ~200 histories, several thousand destination points quick); kernel values are inputs "
              "(harness evaluates the pure-Python kernel classes; C08 covers them); exact-field arithmetic in place of IEEE "
              "doubles; order1_reproduces_linear is about any exact solution of the system handed to gj_solve (soundness of "
              "gj_solve itself is property C13), the tie runs the real gj_solve model bit-exactly; LinkedListNNPS / serial "
              "cython backend only; histories respect the documented contract (same array names/order on rebinding, "
              "update() after in-place changes of positions / smoothing lengths); no second evaluator with periodic domains.")
TIMEOUT = {'quick': 1500, 'thorough': 3600}
